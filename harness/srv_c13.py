"""C13 helpers: a provider history executor whose state can be dumped after every step and restored
into a fresh provider built from the same configuration.  Outcomes are canonical (token values,
dynamic client ids, request_uris -> indices into per-instance tables; no random values, no addresses).
"""
import base64
import copy
import json
import os

import srv

CLIENTS = ["client_1", "client_2", "client_3"]
USERS = ["diana", "babs"]
TOKEN_EP = "https://example.com/token"

AUTHZ = {
    "class": "idpyoidc.server.authz.AuthzHandling",
    "kwargs": {"grant_config": {
        "usage_rules": {
            "authorization_code": {"supports_minting": ["access_token", "refresh_token", "id_token"],
                                   "max_usage": 1, "expires_in": 300},
            "access_token": {"expires_in": 600},
            "refresh_token": {"supports_minting": ["access_token", "refresh_token", "id_token"],
                              "expires_in": 3600},
        },
        "expires_in": 43200}},
}


def jwks_def_args(path):
    """token_handler_args pinning the token keys through a key file (the `jwks_def` way)."""
    return {"jwks_def": {"private_path": path, "read_only": False,
                         "key_defs": [{"type": "oct", "bytes": 24, "use": ["enc"], "kid": "code"},
                                      {"type": "oct", "bytes": 24, "use": ["enc"], "kid": "token"},
                                      {"type": "oct", "bytes": 24, "use": ["enc"], "kid": "refresh"}]},
            "code": {"lifetime": 600, "kwargs": {}}, "token": {"lifetime": 3600, "kwargs": {}},
            "refresh": {"lifetime": 86400, "kwargs": {}},
            "id_token": {"class": "idpyoidc.server.token.id_token.IDToken", "kwargs": {}}}


def keyfile_crypt(path):
    """crypt_conf whose password and salt live in a key file (init_key_jar with private_path)."""
    return {"kwargs": {"keys": {"key_defs": [{"type": "oct", "bytes": 24, "use": ["enc"], "kid": "password"},
                                             {"type": "oct", "bytes": 24, "use": ["enc"], "kid": "salt"}],
                                "private_path": path, "read_only": False}, "iterations": 1}}


def cookie_conf(path):
    from idpyoidc.server.cookie_handler import CookieHandler
    return {"class": CookieHandler, "kwargs": {
        # (lower-case "oct" + bytes: with the spelling "OCT" of srv.py the key file is rewritten with new keys on every start)
        "keys": {"key_defs": [{"type": "oct", "bytes": 24, "use": ["enc"], "kid": "enc"},
                              {"type": "oct", "bytes": 24, "use": ["sig"], "kid": "sig"}],
                 "private_path": path, "read_only": False},
        "name": {"session": "oidc_op", "register": "oidc_op_reg", "session_management": "oidc_op_sman"}}}


def make_provider(kind):
    """kind: dict(jwt_access: bool, pin: 'pwsalt' | 'key' | 'keyfile' | 'jwks_def')"""
    pin = kind.get("pin", "pwsalt")
    kw = dict(clients=CLIENTS, jwt_access=kind.get("jwt_access", False), authz=copy.deepcopy(AUTHZ),
              client_over={"client_2": {"token_endpoint_auth_method": "client_secret_jwt"},
                           "client_3": {"allowed_scopes": ["openid", "email", "offline_access"]}})
    extra = {}
    if kind.get("cookie_pin", True):
        # the cookie protection keys are configured key material too: a key file, like the provider's signing keys
        # (without it a fresh provider draws new keys and takes every cookie issued before the export for absent)
        extra["cookie_handler"] = cookie_conf(os.path.join(srv.RUN, "c13_cookie_jwks.json"))
    if kind.get("logout_uris", True):
        kw["client_over"]["client_1"] = {"frontchannel_logout_uri": "https://client_1.example.com/fc_logout",
                                         "post_logout_redirect_uri": [("https://client_1.example.com/post_logout", None)]}
        kw["client_over"]["client_3"]["frontchannel_logout_uri"] = "https://client_3.example.com/fc_logout"
        kw["client_over"]["client_3"]["frontchannel_logout_session_required"] = True
    if kind.get("sub_func"):
        # configured subject minters (session_params.sub_func): the public identifier is salted with a configured value
        kw["sub_func"] = {"public": {"class": "idpyoidc.server.session.manager.PublicID", "kwargs": {"salt": "c13-configured-salt"}}}
    if pin == "jwks_def":
        extra["token_handler_args"] = jwks_def_args(os.path.join(srv.RUN, "c13_token_jwks.json"))
    server = srv.make_server(extra=extra or None, **kw) if pin in ("pwsalt", "jwks_def") else None
    if server is None:
        conf = srv.op_conf(jwt_access=kw["jwt_access"], authz=kw["authz"])
        if pin == "key":
            cc = {"kwargs": {"key": b"0123456789abcdef0123456789abcdef"}}
        else:
            cc = keyfile_crypt(os.path.join(srv.RUN, "c13_crypt_jwks.json"))
        conf["session_params"] = {"encrypter": copy.deepcopy(cc)}
        conf.update({k: v for k, v in extra.items() if k == "cookie_handler"})
        for k in ("code", "token", "refresh"):
            spec = conf["token_handler_args"][k]
            if "class" not in spec:
                spec["kwargs"]["crypt_conf"] = copy.deepcopy(cc)
        from idpyoidc.server import Server
        from idpyoidc.server.configure import OPConfiguration
        server = Server(OPConfiguration(conf=conf, base_path=srv.RUN), cwd=srv.RUN)
        for cid in CLIENTS:
            server.context.cdb[cid] = srv.client_record(cid, **kw["client_over"].get(cid, {}))
            server.keyjar.add_symmetric(cid, server.context.cdb[cid]["client_secret"])
    return server


def restore(server, dump):
    server.context.load(dump, init_args={"upstream_get": server.upstream_get,
                                         "handler": server.context.session_manager.token_handler})
    server.context.upstream_get = server.unit_get
    # symmetric keys of dynamically registered clients travel with the key jar dump
    return server


VOLATILE = {"jti", "sid", "at_hash", "c_hash", "kid"}


def jwt_claims(tok):
    try:
        p = tok.split(".")[1]
        d = json.loads(base64.urlsafe_b64decode(p + "=" * (-len(p) % 4)))
        return {k: v for k, v in sorted(d.items()) if k not in VOLATILE}
    except Exception:
        return None


class Prov:
    """One provider instance + the tables that make outcomes canonical."""

    def __init__(self, kind, clock, server=None):
        self.kind = kind
        self.clock = clock
        self.server = server or make_provider(kind)
        self.ctx = self.server.context
        self.tokens = []      # index -> token value (codes, access, refresh, id tokens), minting order
        self.tclass = []      # index -> "code" | "access_token" | "refresh_token" | "id_token"
        self.towner = []      # index -> client reference the token was issued to
        self.dyn = []         # index -> dict(client_id, client_secret, rat)
        self.par = []         # index -> request_uri
        self.nonce = 0
        # session bookkeeping (only with kind["sessions"]): what a browser / an operator holds on to
        self.track = bool(kind.get("sessions")) if isinstance(kind, dict) else False
        self.sids = []        # index -> session id (the encrypted branch id the provider handed out first for that branch)
        self.spaths = []      # index -> (user, client, grant id) the session id resolves to
        self.cookies = []     # index -> dict(cookie=[...], req={...}, cref=..., sidx=int)

    def tables(self):
        return {"tokens": list(self.tokens), "tclass": list(self.tclass), "towner": list(self.towner),
                "dyn": copy.deepcopy(self.dyn), "par": list(self.par), "nonce": self.nonce,
                "sids": list(self.sids), "spaths": list(self.spaths), "cookies": copy.deepcopy(self.cookies)}

    def set_tables(self, t):
        self.tokens, self.dyn, self.par, self.nonce = list(t["tokens"]), copy.deepcopy(t["dyn"]), list(t["par"]), t["nonce"]
        self.tclass, self.towner = list(t["tclass"]), list(t["towner"])
        self.sids, self.spaths = list(t.get("sids", [])), list(t.get("spaths", []))
        self.cookies = copy.deepcopy(t.get("cookies", []))

    # ---- references
    def client(self, ref):
        if isinstance(ref, str):
            return ref, self.ctx.cdb.get(ref, {}).get("client_secret", "no-secret")
        i = ref[1]
        if i < len(self.dyn):
            return self.dyn[i]["client_id"], self.dyn[i]["client_secret"]
        return "unknown-client", "no-secret"

    def tok(self, ref):
        if ref[0] == "tok":
            return self.tokens[ref[1]] if ref[1] < len(self.tokens) else "missing"
        return ["", "garbage", "Zm9vYmFy", "a.b.c"][ref[1] % 4]

    def note(self, val, cls="?", owner=None):
        if val in self.tokens:
            return self.tokens.index(val)
        self.tokens.append(val)
        self.tclass.append(cls)
        self.towner.append(owner)
        return len(self.tokens) - 1

    def redirect(self, cid):
        rec = self.ctx.cdb.get(cid) or {}
        uris = rec.get("redirect_uris") or [("https://x.example.com/cb", None)]
        u = uris[0]
        return u[0] if isinstance(u, (list, tuple)) else u

    @staticmethod
    def err(resp):
        try:
            if "error" in resp:
                return str(resp["error"])
        except Exception:
            pass
        return None

    # ---- ops
    def run(self, op):
        try:
            return self.canon(getattr(self, "op_" + op[0])(*op[1:]))
        except Exception as e:       # a Python-level crash inside the library is a refusal of that kind
            return ["exc", type(e).__name__]

    def canon(self, x):
        """random identifiers of dynamically registered clients -> their index"""
        if isinstance(x, dict):
            return {k: self.canon(v) for k, v in x.items()}
        if isinstance(x, (list, tuple)):
            return [self.canon(v) for v in x]
        if isinstance(x, str):
            for i, d in enumerate(self.dyn):
                if x == d["client_id"]:
                    return "<dyn %d>" % i
        return x

    def op_tick(self, d):
        self.clock.tick(d)
        return ["ok"]

    def _authz(self, req, user, cref=None, cookie=None):
        srv.set_user(self.server, user)
        ep = self.server.get_endpoint("authorization")
        p = ep.parse_request(req)
        e = self.err(p)
        if e:
            return ["err", e]
        if cookie is None:
            res = ep.process_request(p)
        else:
            import logging
            lg = logging.getLogger("idpyoidc.server.oauth2.authorization")
            lvl = lg.level
            lg.setLevel(logging.CRITICAL)       # (NoAuthn cannot render a login page: the endpoint logs that traceback)
            try:
                res = ep.process_request(p, http_info={"cookie": cookie})
            finally:
                lg.setLevel(lvl)
            if isinstance(res, dict) and "http_response" in res and "response_args" not in res:
                return ["login"]      # the provider wants the user to authenticate (again); nothing was issued
        ra = res.get("response_args") if isinstance(res, dict) else res
        e = self.err(ra) if ra is not None else self.err(res)
        if e:
            return ["err", e]
        out = {}
        for k in ("code", "access_token", "id_token"):
            if k in ra:
                out[k] = self.note(ra[k], k, cref)
                if k == "id_token":
                    out["id_token_claims"] = jwt_claims(ra[k])
        out["scope"] = sorted(ra["scope"]) if "scope" in ra else None
        if self.track:
            ck = res.get("cookie") if isinstance(res, dict) else None
            sidx = self.note_sid(res.get("session_id")) if isinstance(res, dict) and res.get("session_id") else None
            out["session"] = sidx
            if ck:
                self.cookies.append({"cookie": copy.deepcopy(ck), "req": dict(req), "cref": cref, "sidx": sidx, "user": user})
                out["cookie"] = len(self.cookies) - 1
        return ["ok", out]

    # ---- session ids: named by the index of the branch they resolve to
    def note_sid(self, sid):
        try:
            path = tuple(self.ctx.session_manager.decrypt_session_id(sid))
        except Exception:
            return None
        if path in self.spaths:
            return self.spaths.index(path)
        self.spaths.append(path)
        self.sids.append(sid)
        return len(self.sids) - 1

    def sid(self, i):
        return self.sids[i] if i < len(self.sids) else "bm8gc3VjaCBzZXNzaW9u"

    def canon_sid(self, sid):
        try:
            path = tuple(self.ctx.session_manager.decrypt_session_id(sid))
        except Exception:
            return "<undecodable session id>"
        return "<session %d>" % self.spaths.index(path) if path in self.spaths else "<session ?>"

    def op_authz(self, user, cref, scope, rtype="code"):
        cid, _ = self.client(cref)
        self.nonce += 1
        req = {"client_id": cid, "redirect_uri": self.redirect(cid), "response_type": rtype,
               "scope": " ".join(scope), "state": "st%d" % self.nonce, "nonce": "nonce-%d" % self.nonce}
        if "offline_access" in scope:
            req["prompt"] = "consent"
        if self.nonce % 3 == 0:
            # parameters the request class does not declare (what add-ons such as PKCE rely on) are part of the stored request
            req["code_challenge"] = "E9Melhoa2OwvFrEMTJguCHaoeK1t8URWbuGJSstw-cM"
            req["code_challenge_method"] = "S256"
            req["x_note"] = "k=v&x y"
        return self._authz(req, user, cref)

    def _client_auth(self, cref, req, jti=None):
        cid, sec = self.client(cref)
        req["client_id"] = cid
        if jti is None:
            req["client_secret"] = sec
            return req
        from cryptojwt.jwt import JWT
        from cryptojwt.key_jar import KeyJar
        kj = KeyJar()
        kj.add_symmetric(cid, sec, ["sig"])
        kj.add_symmetric("", sec, ["sig"])
        _jwt = JWT(kj, iss=cid, lifetime=300, sign_alg="HS256")
        _jwt.with_jti = False
        req["client_assertion"] = _jwt.pack({"aud": [TOKEN_EP], "sub": cid, "jti": "jti-%s" % jti})
        req["client_assertion_type"] = "urn:ietf:params:oauth:client-assertion-type:jwt-bearer"
        return req

    def _token(self, req, cref=None):
        ep = self.server.get_endpoint("token")
        p = ep.parse_request(req)
        e = self.err(p)
        if e:
            return ["err", e]
        res = ep.process_request(p)
        ra = res.get("response_args") if isinstance(res, dict) and "response_args" in res else res
        e = self.err(ra)
        if e:
            return ["err", e]
        out = {}
        for k in ("access_token", "refresh_token", "id_token"):
            if k in ra:
                out[k] = self.note(ra[k], k, cref)
        if "id_token" in ra:
            out["id_token_claims"] = jwt_claims(ra["id_token"])
        if self.kind.get("jwt_access") and "access_token" in ra:
            out["access_token_claims"] = jwt_claims(ra["access_token"])
        sc = ra.get("scope")
        out["scope"] = sorted(sc.split(" ") if isinstance(sc, str) else sc) if sc else None
        out["expires_in"] = ra.get("expires_in")
        out["token_type"] = ra.get("token_type")
        return ["ok", out]

    def op_token(self, ref, cref, jti=None, owner=None):
        cid, _ = self.client(owner if owner is not None else cref)
        req = {"grant_type": "authorization_code", "code": self.tok(ref), "redirect_uri": self.redirect(cid)}
        return self._token(self._client_auth(cref, req, jti), cref)

    def op_refresh(self, ref, cref, scope=None, jti=None):
        req = {"grant_type": "refresh_token", "refresh_token": self.tok(ref)}
        if scope is not None:
            req["scope"] = " ".join(scope)
        return self._token(self._client_auth(cref, req, jti), cref)

    def _simple(self, epname, req, hdr=None):
        ep = self.server.get_endpoint(epname)
        hi = {"headers": hdr} if hdr else None
        p = ep.parse_request(req, http_info=hi) if hi else ep.parse_request(req)
        e = self.err(p)
        if e:
            return None, ["err", e]
        res = ep.process_request(p, http_info=hi) if hi else ep.process_request(p)
        ra = res.get("response_args") if isinstance(res, dict) and "response_args" in res else res
        e = self.err(ra) if ra is not None else None
        if e:
            return None, ["err", e]
        return (ra, res), None

    def op_revoke(self, ref, cref, hint=None):
        req = {"token": self.tok(ref)}
        if hint:
            req["token_type_hint"] = hint
        r, e = self._simple("token_revocation", self._client_auth(cref, req))
        return e or ["ok"]

    def op_introspect(self, ref, cref):
        r, e = self._simple("introspection", self._client_auth(cref, {"token": self.tok(ref)}))
        if e:
            return e
        d = r[0].to_dict() if hasattr(r[0], "to_dict") else dict(r[0])
        return ["ok", {k: v for k, v in sorted(d.items()) if k not in VOLATILE}]

    def op_userinfo(self, ref):
        r, e = self._simple("userinfo", {}, hdr={"authorization": "Bearer " + self.tok(ref)})
        if e:
            return e
        d = r[0].to_dict() if hasattr(r[0], "to_dict") else dict(r[0])
        return ["ok", {k: v for k, v in sorted(d.items()) if k not in VOLATILE}]

    def op_register(self, n):
        req = {"redirect_uris": ["https://dyn%d.example.org/cb" % n], "client_name": "dyn %d" % n,
               "response_types": ["code"], "grant_types": ["authorization_code", "refresh_token"],
               "token_endpoint_auth_method": "client_secret_post", "contacts": ["ops%d@example.org" % n]}
        r, e = self._simple("registration", req)
        if e:
            return e
        d = r[0].to_dict()
        self.dyn.append({"client_id": d["client_id"], "client_secret": d.get("client_secret", ""),
                         "rat": d.get("registration_access_token", "")})
        drop = {"client_id", "client_secret", "registration_access_token", "registration_client_uri",
                "client_id_issued_at", "client_secret_expires_at"}
        return ["ok", len(self.dyn) - 1, {k: v for k, v in sorted(d.items()) if k not in drop},
                d.get("client_secret_expires_at", 0) - self.clock.now if d.get("client_secret_expires_at") else 0]

    def op_regread(self, i):
        if i >= len(self.dyn):
            return ["skip"]
        c = self.dyn[i]
        r, e = self._simple("registration_read", {"client_id": c["client_id"]},
                            hdr={"authorization": "Bearer " + c["rat"]})
        if e:
            return e
        d = r[0].to_dict()
        ok = d.get("client_id") == c["client_id"] and d.get("client_secret") == c["client_secret"]
        drop = {"client_id", "client_secret", "registration_access_token", "registration_client_uri",
                "client_id_issued_at", "client_secret_expires_at"}
        return ["ok", ok, {k: v for k, v in sorted(d.items()) if k not in drop}]

    def op_par(self, cref, scope):
        cid, _ = self.client(cref)
        self.nonce += 1
        req = {"client_id": cid, "redirect_uri": self.redirect(cid), "response_type": "code",
               "scope": " ".join(scope), "state": "ps%d" % self.nonce, "nonce": "pnonce-%d" % self.nonce}
        if "offline_access" in scope:
            req["prompt"] = "consent"
        r, e = self._simple("pushed_authorization", self._client_auth(cref, req))
        if e:
            return e
        hr = r[1]["http_response"]
        self.par.append(hr["request_uri"])
        return ["ok", len(self.par) - 1, hr.get("expires_in")]

    def op_authz_par(self, i, user, cref, scope=("openid",)):
        cid, _ = self.client(cref)
        uri = self.par[i] if i < len(self.par) else "urn:uuid:00000000-0000-0000-0000-000000000000"
        self.nonce += 1
        req = {"client_id": cid, "redirect_uri": self.redirect(cid), "response_type": "code",
               "scope": " ".join(scope), "state": "as%d" % self.nonce, "nonce": "anonce-%d" % self.nonce,
               "request_uri": uri}
        return self._authz(req, user, cref)

    # ---- a browser that comes back with the provider's session cookie (tracked providers only)
    def op_authzc(self, k, user, mode="same", cref=None, scope=("openid", "email")):
        """the authorization request of a user agent presenting the session cookie set by the k-th successful
        authorization response.  mode: "same" = the very request that was answered then; "scope" = the same client asks
        again with new state / nonce and `scope`; "client" = another client (`cref`) is visited with that cookie."""
        if k >= len(self.cookies):
            return ["skip"]
        c = self.cookies[k]
        if mode == "same":
            req, cr = dict(c["req"]), c["cref"]
        else:
            cr = c["cref"] if mode == "scope" else cref
            cid, _ = self.client(cr)
            self.nonce += 1
            req = {"client_id": cid, "redirect_uri": self.redirect(cid), "response_type": "code",
                   "scope": " ".join(scope), "state": "cs%d" % self.nonce, "nonce": "cnonce-%d" % self.nonce}
        return self._authz(req, user, cr, cookie=copy.deepcopy(c["cookie"]))

    # ---- state changes of an existing session through the session manager's / end-session endpoint's API
    def op_api(self, what, i, ref=None, flag=False):
        sm = self.ctx.session_manager
        if i is not None and i >= len(self.sids):
            return ["skip"]
        if what == "revoke_client":
            sm.revoke_client_session(self.sid(i))
        elif what == "revoke_grant":
            sm.revoke_grant(self.sid(i))
        elif what == "revoke_user":
            sm.revoke_sub_tree(self.sid(i), 0)
        elif what == "remove_session":
            sm.remove_session(self.sid(i))
        elif what == "revoke_token":
            val = self.tok(ref)
            sid = sm.get_session_id_by_token(val) if i is None else self.sid(i)
            sm.revoke_token(sid, val, recursive=bool(flag))
        elif what == "logout":
            r = self.server.get_endpoint("session").do_verified_logout(self.sid(i), alla=bool(flag))
            return ["ok", len(list(r))]
        else:
            return ["skip"]
        return ["ok"]

    # ---- read-only queries that resolve a session id
    def tix(self, value):
        return self.tokens.index(value) if value in self.tokens else -1

    def grant_view(self, g):
        ev = getattr(g, "authentication_event", None)
        return {"class": type(g).__name__, "revoked": bool(g.revoked), "used": g.used, "active": bool(g.is_active()),
                "scope": list(g.scope or []), "sub": g.sub, "expires_at": g.expires_at,
                "usage_rules": json.loads(json.dumps(g.usage_rules, sort_keys=True, default=str)),
                "authn_event": self._msg_plain(ev), "authn_valid": bool(ev.is_valid()) if ev is not None and hasattr(ev, "is_valid") else None,
                "request": self._msg_plain(getattr(g, "authorization_request", None)),
                "tokens": [[self.tix(t.value), t.token_class, t.used, bool(t.revoked), bool(t.is_active()), t.expires_at,
                            self.tix(t.based_on) if t.based_on else None,
                            json.loads(json.dumps(t.usage_rules, sort_keys=True, default=str))] for t in g.issued_token]}

    @staticmethod
    def _msg_plain(m):
        """a stored message as plain data (random client identifiers inside it are named by Prov.canon afterwards)"""
        if m is None:
            return None
        try:
            d = m.to_dict() if hasattr(m, "to_dict") else dict(m)
        except Exception:
            d = dict(getattr(m, "_dict", {}))
        return json.loads(json.dumps({str(k): v for k, v in d.items() if not str(k).startswith("__")}, sort_keys=True, default=str))

    def node_view(self, n):
        from idpyoidc.server.session.grant import Grant
        if isinstance(n, Grant):
            return self.grant_view(n)
        return {"class": type(n).__name__, "revoked": bool(n.revoked), "n_sub": len(n.subordinate), "id": n.id,
                "active": bool(n.is_active()) if hasattr(n, "is_active") else None}

    def op_lookup(self, what, i, ref=None):
        sm = self.ctx.session_manager
        if i >= len(self.sids):
            return ["skip"]
        sid = self.sid(i)
        if what == "getitem":
            return ["ok", self.node_view(sm[sid])]
        if what == "grant":
            return ["ok", self.grant_view(sm.get_grant(sid))]
        if what == "grant_argument":
            return ["ok", bool(sm.get_grant_argument(sid, "revoked")), sm.get_grant_argument(sid, "used")]
        if what == "info":
            r = sm.get_session_info(sid, grant=True)
            return ["ok", {k: (self.node_view(v) if k in ("user", "client", "grant") else
                               self.canon_sid(v) if k == "branch_id" else
                               ("<grant %d>" % i if k == "grant_id" else v)) for k, v in sorted(r.items())}]
        if what == "authn_event":
            return ["ok", self._msg_plain(sm.get_authentication_event(sid))]
        if what == "authn_events":
            return ["ok", [self._msg_plain(e) for e in sm.get_authentication_events(sid)]]
        if what == "client_revoked":
            return ["ok", bool(sm.client_session_is_revoked(sid))]
        if what == "grants":
            return ["ok", [self.grant_view(g) for g in sm.grants(sid)]]
        if what == "find_token":
            t = sm.find_token(sid, self.tok(ref))
            return ["ok", None if t is None else [self.tix(t.value), t.token_class, t.used, bool(t.revoked), bool(t.is_active())]]
        return ["skip"]

    LOOKUPS = ("getitem", "grant", "grant_argument", "info", "authn_event", "authn_events", "client_revoked", "grants")

    def probes(self):
        """every read-only resolution of every session id handed out so far (what any later request handler may look at);
        one line of canonical JSON per look-up (an object reached twice is rendered once)"""
        sm = self.ctx.session_manager
        memo = {}
        keep = []

        def gv(o):
            if id(o) not in memo:
                keep.append(o)
                memo[id(o)] = json.dumps(self.canon(self.node_view(o)), sort_keys=True)
            return memo[id(o)]

        def ev(e):
            if id(e) not in memo:
                keep.append(e)
                memo[id(e)] = json.dumps(self.canon(self._msg_plain(e)), sort_keys=True)
            return memo[id(e)]

        out = []
        for i, sid in enumerate(self.sids):
            for what, f in (("getitem", lambda: gv(sm[sid])),
                            ("grant", lambda: gv(sm.get_grant(sid))),
                            ("info", lambda: {k: (gv(v) if k in ("user", "client", "grant") else self.canon_sid(v) if k == "branch_id"
                                                  else "<grant %d>" % i if k == "grant_id" else self.canon(v))
                                              for k, v in sorted(sm.get_session_info(sid, grant=True).items())}),
                            ("authn_events", lambda: [ev(e) for e in sm.get_authentication_events(sid)]),
                            ("client_revoked", lambda: bool(sm.client_session_is_revoked(sid))),
                            ("grants", lambda: [gv(g) for g in sm.grants(sid)])):
                try:
                    out.append([i, what, ["ok", f()]])
                except Exception as e:
                    out.append([i, what, ["exc", type(e).__name__]])
        return out

    def op_end_session(self, k, idref=None, plr=False):
        """RP-initiated logout: the end-session endpoint visited with the k-th session cookie (and an id_token_hint);
        the answer is the redirect to the logout confirmation page, whose signed parameter names the session."""
        import urllib.parse
        if k >= len(self.cookies):
            return ["skip"]
        c = self.cookies[k]
        ep = self.server.get_endpoint("session")
        req = {}
        if idref is not None:
            req["id_token_hint"] = self.tok(idref)
        if plr:
            cid, _ = self.client(c["cref"])
            req["post_logout_redirect_uri"] = "https://%s.example.com/post_logout" % cid
            req["state"] = "logout-state"
        hi = {"cookie": copy.deepcopy(c["cookie"])}
        # (Session.parse_request cannot be used with an endpoint that has no client authentication method: it reads
        #  auth_info["token"] of the 'none' method and raises KeyError; the request is built and verified the way
        #  parse_request does it for a dict, as the repository's own tests do)
        p = ep.request_cls(**req)
        if not p.verify(keyjar=self.server.keyjar, sigalg=""):
            return ["err", "request does not verify"]
        res = ep.process_request(p, http_info=hi)
        loc = res.get("redirect_location") if isinstance(res, dict) else None
        if not loc:
            return ["err", self.err(res) or "no redirect"]
        sjwt = urllib.parse.parse_qs(urllib.parse.urlsplit(loc).query).get("sjwt", [""])[0]
        try:
            body = sjwt.split(".")[1]
            claims = json.loads(base64.urlsafe_b64decode(body + "=" * (-len(body) % 4)))
        except Exception:
            claims = {}
        return ["ok", {"sid": self.canon_sid(claims.get("sid", "")), "redirect_uri": claims.get("redirect_uri"),
                       "state": claims.get("state")}]

    # ---- a state digest through the public API only (what the property calls "equivalent")
    @staticmethod
    def _msg_view(m):
        """the stored request as parameter -> canonical text (what the provider will read from it later)"""
        if m is None:
            return None
        try:
            d = m.to_dict() if hasattr(m, "to_dict") else dict(m)
        except Exception:
            d = dict(getattr(m, "_dict", {}))
        return {str(k): json.dumps(v, sort_keys=True, default=str) for k, v in sorted(d.items()) if not str(k).startswith("__")}

    def snapshot(self):
        from idpyoidc.server.session.grant import Grant
        sm = self.ctx.session_manager
        nodes = {}
        for k, n in sm.db.items():
            if isinstance(n, Grant):
                nodes[k if len(k.split(";;")) == 3 else "<sid-key>"] = {
                    "grant": True, "revoked": n.revoked, "used": n.used, "scope": n.scope, "sub": n.sub,
                    "expires_at": n.expires_at, "issued_at": n.issued_at,
                    "authorization_request": self._msg_view(getattr(n, "authorization_request", None)),
                    "tokens": [[self.tokens.index(t.value) if t.value in self.tokens else -1, t.token_class, t.used,
                                bool(t.revoked), t.expires_at, t.issued_at,
                                self.tokens.index(t.based_on) if t.based_on in self.tokens else None,
                                t.usage_rules, t.scope] for t in n.issued_token]}
            else:
                nodes[k] = {"grant": False, "revoked": n.revoked, "sub": list(n.subordinate), "id": n.id, "type": n.type}
        return nodes


# ======================================================================================= relying party
RP_CONF = {"issuer": "https://op.example.com", "redirect_uris": ["https://rp.example.com/cb"],
           "client_id": "client_1", "client_secret": "abcdefghijklmnopqrstuvwxyz012345",
           "base_url": "https://rp.example.com",
           "key_conf": {"key_defs": [{"type": "EC", "crv": "P-256", "use": ["sig"]}],
                        "private_path": os.path.join(srv.RUN, "c13_rp_jwks.json"), "read_only": False}}
RP_PROVIDER_INFO = {"issuer": "https://op.example.com",
                    "authorization_endpoint": "https://op.example.com/authorization",
                    "token_endpoint": "https://op.example.com/token",
                    "userinfo_endpoint": "https://op.example.com/userinfo"}


class RPx:
    """One relying party (idpyoidc.client.oidc.RP) driven through its real services; states and nonces are
    random, outcomes name them by index."""

    def __init__(self):
        from idpyoidc.client.oidc import RP
        self.rp = RP(config=copy.deepcopy(RP_CONF))
        self.rp.get_context().provider_info = copy.deepcopy(RP_PROVIDER_INFO)
        self.states = []
        self.nonces = []

    def tables(self):
        return {"states": list(self.states), "nonces": list(self.nonces)}

    def set_tables(self, t):
        self.states, self.nonces = list(t["states"]), list(t["nonces"])

    def dump(self):
        return self.rp.get_context().dump()

    def load(self, d):
        self.rp.get_context().load(d)

    def st(self, i):
        return self.states[i] if i < len(self.states) else "no-such-state"

    def canon(self, x):
        if isinstance(x, dict):
            return {k: self.canon(v) for k, v in sorted(x.items())}
        if isinstance(x, (list, tuple)):
            return [self.canon(v) for v in x]
        if isinstance(x, str):
            if x in self.states:
                return "<state %d>" % self.states.index(x)
            if x in self.nonces:
                return "<nonce %d>" % self.nonces.index(x)
        return x

    def run(self, op):
        try:
            return self.canon(getattr(self, "op_" + op[0])(*op[1:]))
        except Exception as e:
            return ["exc", type(e).__name__]

    def op_begin(self, scope):
        svc = self.rp.get_service("authorization")
        req = svc.construct(request_args={"scope": list(scope), "response_type": "code",
                                          "redirect_uri": RP_CONF["redirect_uris"][0]})
        self.states.append(req["state"])
        self.nonces.append(req.get("nonce", "no-nonce"))
        return ["ok", req.to_dict()]

    def op_authresp(self, i, code):
        from idpyoidc.message.oauth2 import AuthorizationResponse
        svc = self.rp.get_service("authorization")
        resp = AuthorizationResponse(code=code, state=self.st(i))
        svc.update_service_context(resp, key=self.st(i))
        return ["ok"]

    def op_token_req(self, i):
        return ["ok", self.rp.get_service("accesstoken").construct(request_args={}, state=self.st(i)).to_dict()]

    def op_tokenresp(self, i, at, rt):
        from idpyoidc.message.oauth2 import AccessTokenResponse
        args = {"access_token": at, "token_type": "Bearer"}
        if rt:
            args["refresh_token"] = rt
        self.rp.get_context().cstate.update(self.st(i), AccessTokenResponse(**args))
        return ["ok"]

    def op_refresh_req(self, i):
        return ["ok", self.rp.get_service("refresh_token").construct(request_args={}, state=self.st(i)).to_dict()]

    def op_userinfo_req(self, i):
        return ["ok", self.rp.get_service("userinfo").construct(request_args={}, state=self.st(i)).to_dict()]

    def op_nonce_owner(self, i):
        n = self.nonces[i] if i < len(self.nonces) else "no-such-nonce"
        return ["ok", self.rp.get_context().cstate.get_base_key(n)]

    def op_known(self, i):
        cs = self.rp.get_context().cstate
        return ["ok", self.st(i) in cs.keys(), cs.get(self.st(i))]

    def op_remove(self, i):
        self.rp.get_context().cstate.remove_state(self.st(i))
        return ["ok"]

    def snapshot(self):
        c = self.rp.get_context()
        return self.canon({"db": c.cstate._db, "map": {self.canon(k): v for k, v in c.cstate._map.items()},
                           "issuer": c.issuer, "provider_info": c.provider_info, "base_url": c.base_url,
                           "registration_response": getattr(c, "registration_response", None),
                           "hash_seed": c.hash_seed.hex() if isinstance(c.hash_seed, bytes) else repr(c.hash_seed),
                           "iss_hash": c.iss_hash})


# ======================================================================================= relying party: sessions
# A relying party driven through its public API (StandAloneClient / RPHandler) against a scripted provider: sessions are
# begun, completed (ID Token with sub / sid), refreshed, logged out (RP-initiated + callback, back channel, front
# channel) and cleared; every key the RP binds to a session (nonce, subject, session id, logout state) is looked up.
RPS_OP = "https://op.example.com"
RPS_BASE = "https://rp.example.com"
RPS_SERVICES = {"authorization": {"class": "idpyoidc.client.oidc.authorization.Authorization"},
                "accesstoken": {"class": "idpyoidc.client.oidc.access_token.AccessToken"},
                "refresh_token": {"class": "idpyoidc.client.oidc.refresh_access_token.RefreshAccessToken"},
                "userinfo": {"class": "idpyoidc.client.oidc.userinfo.UserInfo"},
                "end_session": {"class": "idpyoidc.client.oidc.end_session.EndSession"}}
RPS_CONF = {"issuer": RPS_OP, "client_id": "client_1", "client_secret": "abcdefghijklmnopqrstuvwxyz012345",
            "client_type": "oidc", "base_url": RPS_BASE, "redirect_uris": [RPS_BASE + "/cb"],
            "post_logout_redirect_uris": [RPS_BASE + "/post_logout"],
            "backchannel_logout_uri": RPS_BASE + "/bc_logout", "backchannel_logout_session_required": True,
            "frontchannel_logout_uri": RPS_BASE + "/fc_logout", "frontchannel_logout_session_required": True,
            "client_authn_methods": ["client_secret_basic", "client_secret_post"],
            "hash_seed": "c13-rp-hash-seed",
            "provider_info": {"issuer": RPS_OP, "authorization_endpoint": RPS_OP + "/authorization",
                              "token_endpoint": RPS_OP + "/token", "userinfo_endpoint": RPS_OP + "/userinfo",
                              "end_session_endpoint": RPS_OP + "/end_session",
                              "backchannel_logout_supported": True, "backchannel_logout_session_required": True,
                              "frontchannel_logout_supported": True, "frontchannel_logout_session_required": True},
            "services": RPS_SERVICES}
_RPS_KEYS = {}


def rps_keys(who):
    """configured key material (key files): the provider's signing key, the relying party's own keys"""
    if who not in _RPS_KEYS:
        from cryptojwt.key_jar import init_key_jar
        if who == "op":
            _RPS_KEYS[who] = init_key_jar(key_defs=[{"type": "RSA", "use": ["sig"]}], issuer_id=RPS_OP, read_only=False,
                                          private_path=os.path.join(srv.RUN, "c13_rps_op_jwks.json"))
        else:
            _RPS_KEYS[who] = init_key_jar(key_defs=[{"type": "EC", "crv": "P-256", "use": ["sig"]}], issuer_id="", read_only=False,
                                          private_path=os.path.join(srv.RUN, "c13_rps_rp_jwks.json"))
    return _RPS_KEYS[who]


class _Resp:
    def __init__(self, status, text):
        self.status_code, self.text, self.headers, self.url = status, text, {"content-type": "application/json"}, ""


class OpStub:
    """the provider as the relying party's HTTP client sees it: the next answer of each endpoint is scripted"""

    def __init__(self):
        self.next = {}

    def __call__(self, method, url, data=None, headers=None, **kw):
        ep = url.split("?")[0].rsplit("/", 1)[-1]
        return _Resp(*self.next.get(ep, (404, '{"error": "not_scripted"}')))


# ---- the calls the library makes on the RP's state store, as operations of Model.ImpExp (cur_step)
CUR_OWNER = {}        # id(Current instance) -> RPs that owns it
_CUR_SAVED = {}


def cur_log_install():
    from idpyoidc.client.current import Current
    from idpyoidc.message import Message

    def plain(x):
        return x.to_dict() if isinstance(x, Message) else x

    def wrap(name):
        orig = getattr(Current, name)
        _CUR_SAVED[name] = orig

        def f(self, *args, **kw):
            own = CUR_OWNER.get(id(self))
            if own is None or own.cur is not self:
                return orig(self, *args, **kw)
            a = copy.deepcopy([plain(x) for x in args])
            try:
                r = orig(self, *args, **kw)
            except Exception as e:
                own.log.append((name, a, ("exc", type(e).__name__)))
                raise
            own.log.append((name, a, ("ok", copy.deepcopy(r) if isinstance(r, (dict, str)) else None)))
            return r
        setattr(Current, name, f)

    if not _CUR_SAVED:
        for n in ("set", "update", "bind_key", "remove_state", "get_base_key", "get"):
            wrap(n)


def cur_log_uninstall():
    from idpyoidc.client.current import Current
    for n, f in _CUR_SAVED.items():
        setattr(Current, n, f)
    _CUR_SAVED.clear()
    CUR_OWNER.clear()


class RPs:
    """One relying party + the tables that make outcomes canonical (states, nonces, logout states -> indices)."""
    SUBS = ["diana", "babs"]

    def __init__(self, variant="sac"):
        from idpyoidc.client.oauth2.stand_alone_client import StandAloneClient
        self.variant = variant
        self.op = OpStub()
        conf = copy.deepcopy(RPS_CONF)
        self.rph = None
        if variant == "rph":
            from idpyoidc.client.rp_handler import RPHandler
            self.rph = RPHandler(base_url=RPS_BASE, client_configs={RPS_OP: conf}, httpc=self.op, httpc_params={},
                                 keyjar=rps_keys("rp").copy(), hash_seed="c13-rph-hash-seed")
            self.client = self.rph.client_setup(RPS_OP)
        else:
            self.client = StandAloneClient(config=conf, httpc=self.op, httpc_params={}, keyjar=rps_keys("rp").copy())
            self.client.do_provider_info()
            self.client.do_client_registration()
        self.client.get_attribute("keyjar").import_jwks(rps_keys("op").export_jwks(issuer_id=RPS_OP), RPS_OP)
        self.states, self.nonces, self.lstates, self.sess, self.extras = [], [], [], [], []
        self.nat = 0
        self.log = []
        self.register()

    # ---- tables
    def tables(self):
        return copy.deepcopy({"states": self.states, "nonces": self.nonces, "lstates": self.lstates, "sess": self.sess,
                              "nat": self.nat, "extras": self.extras})

    def set_tables(self, t):
        t = copy.deepcopy(t)
        self.states, self.nonces, self.lstates, self.sess, self.nat = t["states"], t["nonces"], t["lstates"], t["sess"], t["nat"]
        self.extras = t["extras"]

    @property
    def ctx(self):
        return self.client.get_context()

    @property
    def cur(self):
        return self.client.get_context().cstate

    def register(self):
        CUR_OWNER[id(self.cur)] = self

    # ---- export / import (tests/test_client_41_rp_handler_persistent.py: context + services)
    def dump(self):
        return {"context": self.ctx.dump(), "services": self.client.get_services().dump()}

    def load(self, d):
        self.ctx.load(d["context"])
        # (the services reach their client through unit_get, as the ones the constructor builds; the recipe of
        #  tests/test_client_41 hands them client.upstream_get, which is None for a stand-alone client)
        self.client.get_services().load(d["services"], init_args={"upstream_get": self.client.unit_get})
        self.client.get_attribute("keyjar").import_jwks(rps_keys("op").export_jwks(issuer_id=RPS_OP), RPS_OP)
        self.register()
        self.log.append(("restore", [], ("ok", None)))

    # ---- canonical views
    def st(self, i):
        return self.states[i] if i < len(self.states) else "no-such-state"

    def canon(self, x):
        from idpyoidc.message import Message
        if isinstance(x, Message):
            x = x.to_dict()
        if isinstance(x, dict):
            return {str(self.canon(k)): self.canon(v) for k, v in x.items()}
        if isinstance(x, (list, tuple)):
            return [self.canon(v) for v in x]
        if isinstance(x, bytes):
            return "bytes:" + x.hex()
        if isinstance(x, str):
            for name, tab in (("state", self.states), ("nonce", self.nonces), ("lstate", self.lstates), ("extra", self.extras)):
                if x in tab:
                    return "<%s %d>" % (name, tab.index(x))
            if x.startswith("eyJ") and x.count(".") == 2:
                c = jwt_claims(x) or {}
                return "<jwt %s>" % json.dumps(self.canon({k: c[k] for k in ("sub", "sid", "nonce", "iat", "exp", "events") if k in c}),
                                               sort_keys=True)
        return x

    def snapshot(self):
        c = self.cur
        return self.canon({"db": c._db, "map": c._map})

    def run(self, op):
        try:
            out = self.canon(getattr(self, "op_" + op[0])(*op[1:]))
        except Exception as e:
            out = ["exc", type(e).__name__]
        c = self.cur
        self.log.append(("snap", [], ("ok", (copy.deepcopy(c._db), copy.deepcopy(c._map)))))
        return out

    # ---- the scripted provider
    def id_token(self, i, sub, sid):
        from idpyoidc.message.oidc import IdToken
        n = self.nonces[i] if i < len(self.nonces) else "no-such-nonce"
        args = {"nonce": n, "sub": sub, "iss": RPS_OP, "aud": "client_1"}
        if sid:
            args["sid"] = sid
        return IdToken(**args).to_jwt(key=rps_keys("op").get_signing_key(issuer_id=RPS_OP), algorithm="RS256", lifetime=300)

    def logout_token(self, **ident):
        from cryptojwt.jwt import JWT
        from idpyoidc.message.oidc.session import BACK_CHANNEL_LOGOUT_EVENT
        payload = {"aud": ["client_1"], "jti": "logout-%d" % self.nat, "events": {BACK_CHANNEL_LOGOUT_EVENT: {}}}
        payload.update(ident)
        return JWT(key_jar=rps_keys("op"), iss=RPS_OP, sign_alg="RS256", lifetime=300).pack(payload=payload)

    def session(self, i):
        return self.sess[i] if i < len(self.sess) and self.sess[i] else {"sub": "nobody", "sid": "no-sid"}

    # ---- operations
    def op_tick(self, d):
        clock = getattr(self, "clock", None)
        if clock is not None:
            clock.now += d
        return ["ok"]

    def op_begin(self, scope, reuse=None):
        from urllib.parse import parse_qs, urlsplit
        args = {"scope": list(scope)}
        if reuse is not None and reuse[0] == "nonce" and reuse[1] < len(self.nonces):
            args["nonce"] = self.nonces[reuse[1]]       # a second authorization request that re-uses an earlier nonce
        before = set(self.cur._map) | set(self.cur._db)
        try:
            url = self.rph.begin(RPS_OP, req_args=args) if self.rph else self.client.init_authorization(req_args=args)
        except Exception:
            # (a refused request leaves the state and the nonce it drew behind: random keys nobody was told)
            self.extras += [k for k in list(self.cur._db) + list(self.cur._map) if k not in before and k not in self.extras]
            raise
        q = {k: v[0] for k, v in parse_qs(urlsplit(url).query).items()}
        # (init_authorization draws and binds a nonce of its own even when the caller supplies one: a random key nobody sent)
        self.extras += [k for k in self.cur._map if k not in before and k != q.get("nonce")]
        self.states.append(q["state"])
        self.nonces.append(q.get("nonce", "no-nonce") if q.get("nonce") not in self.nonces else "re-used-nonce-%d" % len(self.nonces))
        while len(self.sess) < len(self.states):
            self.sess.append(None)
        return ["ok", q]

    def op_finalize(self, i, sub, sid, rt=True):
        self.nat += 1
        idt = self.id_token(i, sub, sid)
        tok = {"access_token": "at-%d" % self.nat, "token_type": "Bearer", "id_token": idt, "expires_in": 600}
        if rt:
            tok["refresh_token"] = "rt-%d" % self.nat
        self.op.next["token"] = (200, json.dumps(tok))
        self.op.next["userinfo"] = (200, json.dumps({"sub": sub, "email": sub + "@example.org"}))
        resp = {"code": "code-%d" % self.nat, "state": self.st(i)}
        if i < len(self.sess):
            self.sess[i] = {"sub": sub, "sid": sid or "no-sid"}
        r = self.rph.finalize(RPS_OP, resp) if self.rph else self.client.finalize(resp)
        return ["ok", r]

    def op_refresh(self, i, with_idt=False):
        self.nat += 1
        tok = {"access_token": "at-%d" % self.nat, "token_type": "Bearer", "expires_in": 600, "refresh_token": "rt-%d" % self.nat}
        if with_idt:
            s = self.session(i)
            tok["id_token"] = self.id_token(i, s["sub"], s["sid"] if s["sid"] != "no-sid" else None)
        self.op.next["token"] = (200, json.dumps(tok))
        api = self.rph or self.client
        return ["ok", api.refresh_access_token(self.st(i))]

    def op_userinfo(self, i):
        s = self.session(i)
        self.op.next["userinfo"] = (200, json.dumps({"sub": s["sub"], "email": s["sub"] + "@example.org", "n": self.nat}))
        api = self.rph or self.client
        return ["ok", api.get_user_info(self.st(i))]

    def op_clear(self, i):
        (self.rph or self.client).clear_session(self.st(i))
        return ["ok"]

    def op_logout(self, i):
        from urllib.parse import parse_qs, urlsplit
        info = (self.rph or self.client).logout(self.st(i))
        q = {k: v[0] for k, v in parse_qs(urlsplit(info["url"]).query).items()}
        self.lstates.append(q.get("state", "no-logout-state"))
        return ["ok", q]

    def op_logout_cb(self, k, clear=True):
        """the post-logout redirect comes back with the logout state (example/flask_rp: session_logout)"""
        ls = self.lstates[k] if k < len(self.lstates) else "no-such-logout-state"
        st = self.cur.get_base_key(ls)
        if clear:
            self.client.clear_session(st)
        return ["ok", st]

    def op_bc_logout(self, by, i, clear=True):
        from idpyoidc.client.oauth2.stand_alone_client import backchannel_logout
        s = self.session(i)
        tok = self.logout_token(**({"sub": s["sub"]} if by == "sub" else {"sid": s["sid"]}))
        st = backchannel_logout(self.client, request_args={"logout_token": tok})
        if clear:
            self.client.clear_session(st)
        return ["ok", st]

    def op_fc_logout(self, i):
        """front-channel logout: the provider names the session id (example/flask_rp: frontchannel_logout)"""
        st = self.cur.get_base_key(self.session(i)["sid"])
        self.client.clear_session(st)
        return ["ok", st]

    def op_lookup(self, kind, i):
        if kind == "nonce":
            k = self.nonces[i] if i < len(self.nonces) else "no-such-nonce"
        elif kind == "lstate":
            k = self.lstates[i] if i < len(self.lstates) else "no-such-logout-state"
        else:
            k = self.session(i)[kind]
        return ["ok", self.cur.get_base_key(k)]

    def op_info(self, i):
        return ["ok", (self.rph or self.client).get_session_information(self.st(i))]

    def op_active(self, i):
        api = self.rph or self.client
        return ["ok", api.has_active_authentication(self.st(i)), list(api.get_valid_access_token(self.st(i)))]


# ======================================================================================= attribute census
CENSUS_ATOMS = (str, bytes, int, float, bool, type(None))


def _qn(c):
    return c.__module__ + "." + c.__name__


def attr_view(v, depth=0):
    """what an attribute holds, comparable across instances: JSON-like values as they are, ImpExp children and other
    objects by class (an ImpExp child is an instance of the census itself)"""
    from idpyoidc.impexp import ImpExp
    from idpyoidc.message import Message
    if isinstance(v, bytes):
        return "bytes:" + v.hex()
    if isinstance(v, CENSUS_ATOMS):
        return v
    if isinstance(v, type):
        return "class:" + _qn(v)
    if isinstance(v, Message):
        return {"msg:" + _qn(type(v)): attr_view(v.to_dict(), depth + 1)}
    if isinstance(v, ImpExp):
        return "impexp:" + _qn(type(v))
    if depth > 6:
        return "..."
    if isinstance(v, dict):
        return {str(k): attr_view(x, depth + 1) for k, x in v.items()}
    if isinstance(v, (list, tuple, set, frozenset)):
        r = [attr_view(x, depth + 1) for x in v]
        return sorted(r, key=repr) if isinstance(v, (set, frozenset)) else r
    if callable(v):
        return "callable:" + getattr(v, "__qualname__", type(v).__name__)
    return "obj:" + _qn(type(v))


def impexp_instances(root, limit=4000):
    """access path -> instance, for every ImpExp instance reachable from root through attributes, dicts, lists, DLDict"""
    from idpyoidc.impexp import ImpExp
    out, seen, stack = {}, set(), [((), root)]
    while stack and len(out) < limit:
        path, o = stack.pop()
        if isinstance(o, CENSUS_ATOMS) or id(o) in seen:
            continue
        seen.add(id(o))
        if isinstance(o, ImpExp):
            out[path] = o
            kids = [((".", a), v) for a, v in vars(o).items() if a != "upstream_get"]
        elif isinstance(o, dict):
            kids = [(("k", str(k)), v) for k, v in o.items()]
        elif isinstance(o, (list, tuple)):
            kids = [(("i", i), v) for i, v in enumerate(o)]
        else:
            continue
        for step, v in kids:
            stack.append((path + (step,), v))
    return out


def census_rows(live, fresh, restored):
    """for every ImpExp instance reachable in `live` and every attribute it carries: (class, attr, verdict, live view,
    fresh view, restored view); verdict: exported | init-arg | config (as a fresh instance has it) | rebuilt (as the
    restored twin has it) | lost (differs in the restored twin: state or configuration that neither dump nor load carry)"""
    ia, i_f, ib = impexp_instances(live), impexp_instances(fresh), impexp_instances(restored)
    rows = []
    for path, o in ia.items():
        cls = type(o)
        if not cls.__module__.startswith("idpyoidc."):
            continue        # (an instrumented stand-in of the harness, e.g. the write log of the session database)
        exported = set(cls.parameter) | set(cls.special_load_dump)
        fo, bo = i_f.get(path), ib.get(path)
        for a, v in vars(o).items():
            if a in exported:
                rows.append((_qn(cls), a, "exported", None, None, None))
                continue
            if a in cls.init_args:
                rows.append((_qn(cls), a, "init-arg", None, None, None))
                continue
            va = attr_view(v)
            vf = attr_view(getattr(fo, a, "<absent>")) if fo is not None else "<no-such-instance>"
            vb = attr_view(getattr(bo, a, "<absent>")) if bo is not None else "<no-such-instance>"
            if vb == va:
                rows.append((_qn(cls), a, "config" if vf == va else "rebuilt", va, vf, vb))
            else:
                rows.append((_qn(cls), a, "lost", va, vf, vb))
    return rows
