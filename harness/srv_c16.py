"""C16 helpers: worlds (real provider + key material), symbolic request objects -> real compact JWS,
drivers for the real authorization and pushed-authorization endpoints, canonical outcomes.

A *symbolic object* is what the generator knows about a request object on the wire (ground truth):
  {"bad": "<text>"}                                   not a JWS at all
  {"alg": <header alg>, "claims": {...},              the header/payload that travel
   "sig": None | {"owner": <key owner>, "alg": <alg signed under>, "claims": {...signed payload...}}}
The signature bytes are a genuine signature by owner's key (key type of sig.alg) over
(header(sig.alg, kid), sig.claims).  Untampered object <=> sig.alg == alg and sig.claims == claims.

  {"jwe": {"alg": <key management alg>, "enc": <content encryption>, "cty": None | "JWT" | ...,
           "to": "OP" | "other",                      whose encryption key the JWE is addressed to
           "damage": None | "tag" | "cut" | "seg4"},  what was done to the compact JWE afterwards
   "inner": <symbolic object as above>                a JWS (or not a JWS: {"bad": ...}) inside the wrapper
            | {"json": {...claims...}}                claims as plain JSON inside the wrapper: nobody signed them
            | {"text": "<text>"}}                     any other plaintext
an encrypted wrapper (compact JWE) around the object.  The provider of every World holds one RSA and one EC
encryption key (ENC["OP"]); ENC["other"] are keys it does not have.

RegWorld: a provider (own key set and advertised request_object_signing_alg_values_supported chosen by the generator)
whose third client, client_d, is NOT written into the client database: it registers through the real registration
endpoint (parse_request + process_request) with a JWKS of several key types, is read back through the real
registration-read endpoint, and is then sent request objects like the static clients.
"""
import base64
import copy
import json
import os

import srv
from cryptojwt.jwk.hmac import SYMKey
from cryptojwt.jws.jws import SIGNER_ALGS
from cryptojwt.key_jar import init_key_jar
from cryptojwt.utils import b64e

KEYDEFS = [{"type": "RSA", "key": "", "use": ["sig"]}, {"type": "EC", "crv": "P-256", "use": ["sig"]}]
OWNERS = ["client_1", "client_2", "mallory", "OP"]
KTYS = ["RSA", "EC", "oct"]
ALG_KTY = {"RS256": "RSA", "RS384": "RSA", "PS256": "RSA", "ES256": "EC", "HS256": "oct", "HS384": "oct", "none": "none",
           "RS512": "RSA", "PS384": "RSA", "PS512": "RSA", "ES384": "EC", "ES512": "EC", "HS512": "oct", "EdDSA": "OKP"}
REDIRECT = {"client_1": "https://client_1.example.com/cb", "client_2": "https://client_2.example.com/cb",
            "client_d": "https://client_d.example.com/cb"}
# ---- the dynamically registered client
DYN = "client_d"
# the slot of the key an algorithm is signed with (client_d owns one key per slot; the static owners only RSA / EC / oct)
ALG_SLOT = {"ES384": "EC384", "ES512": "EC521", "EdDSA": "OKP"}
DYN_SLOTS = ["RSA", "EC", "oct", "EC384", "EC521", "OKP"]
DYN_KEYDEFS = {"RSA": {"type": "RSA", "key": "", "use": ["sig"]}, "EC": {"type": "EC", "crv": "P-256", "use": ["sig"]},
               "EC384": {"type": "EC", "crv": "P-384", "use": ["sig"]}, "EC521": {"type": "EC", "crv": "P-521", "use": ["sig"]},
               "OKP": {"type": "OKP", "crv": "Ed25519", "use": ["sig"]}}
# the provider's OWN signing keys (they sign ID Tokens / userinfo; they never verify a request object)
OP_KEYSETS = {"rsa+p256": ["RSA", "EC"], "rsa": ["RSA"], "p256": ["EC"], "rsa+p384": ["RSA", "EC384"],
              "many": ["RSA", "EC", "EC384", "EC521", "OKP"]}
JOSE_SIGNING = ["RS256", "RS384", "RS512", "PS256", "PS384", "PS512", "ES256", "ES384", "ES512", "EdDSA",
                "HS256", "HS384", "HS512", "none"]


def slot_of(alg):
    return ALG_SLOT.get(alg) or ALG_KTY[alg]


def fixed_client_id(reserved=None, **kwargs):
    """client_id_generator of the RegWorld's registration endpoint: the one new client is always called client_d
    (the generator removes it again before the next case), so that the cases of a shard share their string literals"""
    n, cid = 0, DYN
    while reserved and cid in reserved:
        n += 1
        cid = "%s_%d" % (DYN, n)
    return cid
METHOD_SETS = {"all": None, "rp_pub": ["request_param", "public"], "pub": ["public"]}
_KEYS = {}
ENC = {}
JWE_KTY = {"RSA-OAEP": "RSA", "RSA-OAEP-256": "RSA", "RSA1_5": "RSA", "ECDH-ES": "EC", "ECDH-ES+A128KW": "EC"}


def enc_keys():
    """encryption key pairs: the provider's (added to the key jar of every World) and a stranger's (generated once)"""
    if not ENC:
        from cryptojwt.jwk.ec import new_ec_key
        from cryptojwt.jwk.rsa import new_rsa_key
        for who in ("OP", "other"):
            ENC[who] = {"RSA": new_rsa_key(use="enc", kid="%s-enc-rsa" % who),
                        "EC": new_ec_key("P-256", use="enc", kid="%s-enc-ec" % who)}
    return ENC


def gen_owner(g):
    """the name under which the generator keeps the g-th generation of client_d's material: asymmetric keys of key
    generation g, and (slot "oct") the client_secret issued by the g-th registration under the id"""
    return DYN if g == 0 else "%s#%d" % (DYN, g)


def gen_of(owner):
    """(client the material belongs to, generation) of a key owner name"""
    base, _, g = owner.partition("#")
    return base, int(g) if g else 0


GENERATIONS = 3
JWKS_URI = "https://client_d.example.com/jwks/%d.json"


def jwks_uri_of(index, spec):
    """the URI at which the index-th registration of a history publishes its key document: its OWN one (a refused or
    replaced by-reference registration then cannot change what the registration in force refers to), unless the spec
    names the document of another step ("doc": k - the deliberate republication at a URI used before)"""
    return JWKS_URI % spec.get("doc", index)


def keynum(owner, kty):
    base, g = gen_of(owner)
    if base == DYN:
        return 12 + 6 * g + DYN_SLOTS.index(kty)
    return OWNERS.index(owner) * 3 + KTYS.index(kty)


def dyn_keys():
    """client_d's private keys, one per slot (generated once per process)"""
    if DYN not in _KEYS:
        from cryptojwt.key_jar import build_keyjar
        ks = {}
        for slot, kd in DYN_KEYDEFS.items():
            kj = build_keyjar([kd])
            ks[slot] = kj.get_signing_key(kd["type"])[0]
        _KEYS[DYN] = ks
        # later generations of the client's key material (a client that registers again with new keys): RSA and P-256
        for g in range(1, GENERATIONS):
            _KEYS[gen_owner(g)] = {slot: build_keyjar([DYN_KEYDEFS[slot]]).get_signing_key(DYN_KEYDEFS[slot]["type"])[0]
                                   for slot in ("RSA", "EC")}
    return _KEYS[DYN]


def client_keys():
    """key material of the clients and of the outsider (generated once per process)"""
    if not _KEYS:
        for o in ("client_1", "client_2", "mallory"):
            kj = init_key_jar(key_defs=KEYDEFS, issuer_id=o)
            _KEYS[o] = {"RSA": kj.get_signing_key("RSA", issuer_id=o)[0], "EC": kj.get_signing_key("EC", issuer_id=o)[0],
                        "jwks": kj.export_jwks(issuer_id=o)}
        _KEYS["mallory"]["oct"] = SYMKey(key="mallory_secret_0123456789abcdef0123456789", use="sig")
    return _KEYS


def b64j(d):
    return b64e(json.dumps(d, separators=(",", ":")).encode()).decode()


class Resp:
    def __init__(self, code, text):
        self.status_code, self.status, self.text = code, code, text
        self.headers = {"Content-Type": "application/json"}


class World:
    """One real provider (OAuth2 or OIDC flavour) with two registered clients, their keys imported into the
    provider's key jar, a stub httpc serving request_uri documents from a dict."""

    def __init__(self, oidc, methods="all", has_par=True, ttl=3600):
        eps = {"authorization": {}}
        if METHOD_SETS[methods] is not None:
            eps["authorization"] = {"client_authn_method": METHOD_SETS[methods]}
        eps["pushed_authorization"] = {"ttl": ttl} if has_par else None
        self.oidc, self.methods, self.has_par, self.ttl = oidc, methods, has_par, ttl
        self.server = self.make_server(oidc, eps)
        self.ctx = self.server.context
        self.keys = client_keys()
        for cid in ("client_1", "client_2"):
            self.server.keyjar.import_jwks(self.keys[cid]["jwks"], cid)
        from cryptojwt.key_bundle import KeyBundle
        kb = KeyBundle()
        for k in enc_keys()["OP"].values():
            kb.append(k)
        self.server.keyjar.add_kb("", kb)          # the provider can decrypt: RSA-OAEP and ECDH-ES wrappers
        self.base_cdb = {cid: dict(self.ctx.cdb[cid]) for cid in ("client_1", "client_2")}
        self.base_enc = {k: self.ctx.provider_info.get(k) for k in ENC_SUPPORTED}
        self.base_algs = list(self.ctx.provider_info["request_object_signing_alg_values_supported"])
        self.ep = self.server.get_endpoint("authorization")
        self.par = self.server.get_endpoint("pushed_authorization") if has_par else None
        self.docs = {}
        self.ctx.httpc = self.httpc
        self.fetches = 0
        for cid in ("client_1", "client_2"):
            self.keys[cid]["oct"] = SYMKey(key=self.ctx.cdb[cid]["client_secret"], use="sig")
        self.op = {}
        for t in ("RSA", "EC"):
            ks = self.server.keyjar.get_signing_key(t, issuer_id="")
            if ks:
                self.op[t] = ks[0]

    def make_server(self, oidc, eps):
        return srv.make_server(oidc=oidc, endpoints=eps)

    # ---- environment
    def httpc(self, method, url, **kw):
        self.fetches += 1
        if url in self.docs:
            return Resp(200, self.docs[url])
        if url in getattr(self, "published", {}):
            return Resp(200, self.published[url])
        return Resp(404, "")

    def reset(self):
        for cid in ("client_1", "client_2"):
            self.ctx.cdb[cid] = dict(self.base_cdb[cid])
        for k in list(self.ctx.cdb.keys()):
            if k not in self.base_cdb:
                del self.ctx.cdb[k]
        self.ctx.provider_info["request_object_signing_alg_values_supported"] = list(self.base_algs)
        self.ctx.provider_info.pop("request_uri_parameter_supported", None)
        for k, v in self.base_enc.items():
            if v is None:
                self.ctx.provider_info.pop(k, None)
            else:
                self.ctx.provider_info[k] = list(v)
        self.ctx.par_db.clear()
        self.ctx.jti_db.clear() if hasattr(self.ctx.jti_db, "clear") else None
        self.docs.clear()

    def configure(self, reg=None, request_uris=None, prov_algs=None, ru_supported=None, enc_reg=None, prov_enc=None):
        """reg: {cid: None | str | list}; request_uris: {cid: None | [uri]};
        enc_reg: {cid: [request_object_encryption_alg | None, request_object_encryption_enc | None]};
        prov_enc: [alg values supported | None, enc values supported | None]"""
        self.reset()
        for cid, v in (enc_reg or {}).items():
            for key, val in zip(("request_object_encryption_alg", "request_object_encryption_enc"), v):
                if val is not None:
                    self.ctx.cdb[cid][key] = val
        for key, val in zip(ENC_SUPPORTED, prov_enc or ()):
            if val is not None:
                self.ctx.provider_info[key] = list(val)
        for cid, v in (reg or {}).items():
            if v is not None:
                self.ctx.cdb[cid]["request_object_signing_alg"] = v
        for cid, v in (request_uris or {}).items():
            if v is not None:
                self.ctx.cdb[cid]["request_uris"] = [(u, None) for u in v]
        if prov_algs is not None:
            self.ctx.provider_info["request_object_signing_alg_values_supported"] = list(prov_algs)
        if ru_supported is not None:
            self.ctx.provider_info["request_uri_parameter_supported"] = ru_supported

    # ---- what the provider is configured with, as observed on the live objects (input of the model)
    def observed_config(self):
        kj = self.server.keyjar
        mine = {}
        for o in ("client_1", "client_2", "mallory"):
            for t in KTYS:
                k = self.keys[o].get(t)
                if k is not None:
                    mine[(t, k.kid if t != "oct" else k.key)] = keynum(o, t)
        for t in ("RSA", "EC"):
            if t in self.op:
                mine[(t, self.op[t].kid)] = keynum("OP", t)
        for g in range(GENERATIONS):
            for slot, k in (self.keys.get(gen_owner(g)) or {}).items():
                t = k.kty if k.kty in KTYS else None
                if t is not None:
                    mine[(t, k.kid if t != "oct" else k.key)] = keynum(gen_owner(g), slot)
        jar = []
        for iss in kj.owners():
            ks = []
            for k in kj.get("sig", issuer_id=iss) if iss else kj.get("sig", issuer_id=""):
                if not k.appropriate_for("verify"):
                    continue
                if k.kty not in KTYS:
                    continue        # OKP keys: EdDSA is outside the modelled fragment (the oracle still judges those cases)
                t = k.kty
                ks.append((t, mine.get((t, k.kid if t != "oct" else k.key), 90 + len(ks))))
            jar.append((iss, ks))
        clients = []
        for cid, ci in self.ctx.cdb.items():
            ru = ci.get("request_uris")
            clients.append({"cid": cid, "reg": ci.get("request_object_signing_alg"),
                            "redirect_uris": [u for u, q in ci.get("redirect_uris", [])],
                            "request_uris": None if ru is None else [u for u, q in ru],
                            "response_types": [rt.split(" ") for rt in ci.get("response_types_supported", [])],
                            "enc_alg": ci.get("request_object_encryption_alg"),
                            "enc_enc": ci.get("request_object_encryption_enc")})
        meths = self.ep.client_authn_method or list(self.ctx.client_authn_methods.keys())
        return {"oidc": self.oidc, "has_par": self.server.get_endpoint("pushed_authorization") is not None,
                "methods": [m for m in meths if m in ("request_param", "public", "none")],
                "methods_configured": bool(self.ep.client_authn_method),
                "hooks": [m.__qualname__ for m in self.ep.post_parse_request],
                "par_hooks": [m.__qualname__ for m in self.par.post_parse_request] if self.par else [],
                "prov_algs": list(self.ctx.provider_info.get("request_object_signing_alg_values_supported") or []),
                "ru_supported": self.ctx.provider_info.get("request_uri_parameter_supported", True) is not False,
                "ttl": self.par.ttl if self.par else 0, "jar": jar, "clients": clients, "issuer": srv.ISSUER,
                "prov_enc_algs": self.ctx.provider_info.get(ENC_SUPPORTED[0]),
                "prov_enc_encs": self.ctx.provider_info.get(ENC_SUPPORTED[1]),
                "dec_keys": sorted(k.kid for k in kj.get("enc", issuer_id="") if k.kid)}

    # ---- symbolic object -> compact serialisation
    def key_of(self, owner, kty):
        return self.op[kty] if owner == "OP" else self.keys[owner][kty]

    def sign_key(self, owner, alg):
        """the key [owner] signs [alg] with: by key type, and for client_d by curve"""
        return self.keys[owner][slot_of(alg)] if gen_of(owner)[0] == DYN else self.key_of(owner, ALG_KTY[alg])

    def wire(self, obj):
        if obj is None:
            return None
        if "bad" in obj:
            return obj["bad"]
        if "jwe" in obj:
            return self.wire_jwe(obj)
        sig = obj.get("sig")
        hdr = {"alg": obj["alg"]}
        sigb = ""
        if sig is not None:
            kty = ALG_KTY[sig["alg"]]
            key = self.sign_key(sig["owner"], sig["alg"])
            shdr = {"alg": sig["alg"]}
            if kty != "oct":
                shdr["kid"] = key.kid
                hdr["kid"] = key.kid
            sinput = b64j(shdr) + "." + b64j(sig["claims"])
            raw = SIGNER_ALGS[sig["alg"]].sign(sinput.encode(), key.private_key() if kty != "oct" else key.key)
            sigb = b64e(raw).decode()
        return b64j(hdr) + "." + b64j(obj["claims"]) + "." + sigb

    def wire_jwe(self, obj):
        """a real compact JWE around the wire form of the inner object"""
        from cryptojwt.jwe.jwe import JWE
        h, inner = obj["jwe"], obj["inner"]
        if "json" in inner:
            text = json.dumps(inner["json"])
        elif "text" in inner:
            text = inner["text"]
        else:
            text = self.wire(inner)
        key = enc_keys()[h["to"]][JWE_KTY[h["alg"]]]
        kw = {"cty": h["cty"]} if h.get("cty") else {}
        import warnings
        with warnings.catch_warnings():
            warnings.simplefilter("ignore")          # cryptojwt: "alg=RSA1_5 deprecated"
            txt = JWE(text, alg=h["alg"], enc=h["enc"], **kw).encrypt(keys=[key])
        dmg = h.get("damage")
        if dmg == "tag":            # authentication tag altered
            txt = txt[:-4] + ("AAAA" if not txt.endswith("AAAA") else "BBBB")
        elif dmg == "cut":          # truncated inside the tag
            txt = txt[:-20]
        elif dmg == "seg4":         # the last segment is missing altogether
            txt = ".".join(txt.split(".")[:4])
        return txt

    # ---- driving the real endpoints
    def authz(self, outer):
        try:
            r = self.ep.parse_request(dict(outer))
        except Exception as e:  # a raised exception is a refusal
            return exc_outcome(e), None
        return msg_outcome(r), r

    def basic(self, cid, secret=None):
        s = secret if secret is not None else self.ctx.cdb[cid]["client_secret"]
        return {"headers": {"authorization": "Basic " + base64.b64encode(("%s:%s" % (cid, s)).encode()).decode()}}

    def push(self, pusher, body):
        """PAR endpoint: parse_request + process_request. Returns (outcome of parse, urn or None, outcome of process)"""
        try:
            r = self.par.parse_request(dict(body), http_info=self.basic(pusher))
        except Exception as e:
            return exc_outcome(e), None, None
        o = msg_outcome(r)
        if o["k"] != "acc":
            return o, None, None
        before = set(self.ctx.par_db.keys())
        try:
            res = self.par.process_request(r)
        except Exception as e:
            new = set(self.ctx.par_db.keys()) - before
            return o, (sorted(new)[0] if new else None), exc_outcome(e)
        urn = res["http_response"]["request_uri"]
        return o, urn, {"k": "urn", "expires_in": res["http_response"]["expires_in"]}

    def stored(self, urn):
        m = self.ctx.par_db.get(urn)
        return None if m is None else msg_outcome(m)


ROSA = "request_object_signing_alg"


def _sans_bookkeeping(rec):
    """a client record without `auth_method` (parse_request notes there how the caller of each request class authenticated)"""
    return None if rec is None else {k: v for k, v in dict(rec).items() if k != "auth_method"}


class RegWorld(World):
    """A provider with the two static clients and a real registration / registration-read endpoint; its own signing
    keys are one of OP_KEYSETS.  client_d comes into being only through register()."""

    def __init__(self, oidc=True, methods="all", has_par=True, ttl=3600, opkeys="rsa+p256"):
        self.opkeys = opkeys
        super().__init__(True, methods, has_par, ttl)
        self.keys[DYN] = dyn_keys()
        self.reg_ep = self.server.get_endpoint("registration")
        self.read_ep = self.server.get_endpoint("registration_read")
        self.own_slots = list(OP_KEYSETS[opkeys])

    def make_server(self, oidc, eps):
        eps = dict(eps)
        eps["registration"] = {"client_id_generator": {"class": "srv_c16.fixed_client_id"}}
        keys = {"uri_path": "jwks.json", "key_defs": [DYN_KEYDEFS[s] for s in OP_KEYSETS[self.opkeys]],
                "private_path": os.path.join(srv.RUN, "op_jwks_c16_%s.json" % self.opkeys.replace("+", "_")), "read_only": False}
        return srv.make_server(oidc=True, endpoints=eps, extra={"keys": keys})

    def reset(self):
        super().reset()
        kj = self.server.keyjar
        for o in list(kj.owners()):
            if o.startswith(DYN):
                del kj[o]
        self.ctx.registration_access_token.clear()
        # until a registration assigns a secret, client_d "signs" HS* objects with a secret the provider never issued
        self.keys[DYN]["oct"] = SYMKey(key="client_d_has_no_secret_yet_0123456789abcdef", use="sig")
        for g in range(1, GENERATIONS):
            self.keys[gen_owner(g)]["oct"] = SYMKey(key="client_d_has_no_secret_%d_yet_0123456789abcdef" % g, use="sig")
        self.published = {}          # what the client serves at its jwks_uri
        self.registrations = 0       # how many registrations under the id were attempted in this case

    def read_back(self, cid, rat):
        """the registration-read endpoint, with the registration access token the client was given"""
        try:
            r = self.read_ep.parse_request({"client_id": cid}, http_info={"headers": {"authorization": "Bearer %s" % rat}})
            if "error" in r:
                return {"error": r["error"]}
            return self.read_ep.process_request(r)["response_args"].to_dict()
        except Exception as e:
            return {"error": type(e).__name__ + ": " + str(e)[:80]}

    def register(self, alg, slots, over=None):
        """client_d registers: request_object_signing_alg = alg (None: does not say), jwks = its public keys of [slots].
        Returns what the generator can see: refused | the response, what the client database holds, what is read back"""
        req = {"application_type": "web", "redirect_uris": [REDIRECT[DYN]], "response_types": ["code"],
               "token_endpoint_auth_method": "client_secret_basic",
               "jwks": {"keys": [self.keys[DYN][s].serialize(private=False) for s in slots]}}
        if alg is not None:
            req[ROSA] = alg
        for k, v in (over or {}).items():
            if v is None:
                req.pop(k, None)
            else:
                req[k] = v
        kj = self.server.keyjar
        before = set(self.ctx.cdb.keys())
        why = None
        resp = None
        try:
            r = self.reg_ep.parse_request(json.dumps(req))
            if "error" in r:
                why = "%s: %s" % (r["error"], r.get("error_description", ""))
            else:
                resp = self.reg_ep.process_request(request=r)
                if "response_args" not in resp:
                    why = "%s: %s" % (resp.get("error"), resp.get("error_description", ""))
        except Exception as e:
            why = type(e).__name__ + ": " + str(e)
        new = sorted(set(self.ctx.cdb.keys()) - before)
        if why is not None:
            return {"k": "refused", "why": why[:160], "left_cdb": new, "left_jar": sorted(o for o in kj.owners() if o.startswith(DYN))}
        ra = resp["response_args"]
        cid = ra["client_id"]
        rec = self.ctx.cdb.get(cid) or {}
        if rec.get("client_secret"):
            self.keys[DYN]["oct"] = SYMKey(key=rec["client_secret"], use="sig")
        read = self.read_back(cid, ra.get("registration_access_token"))
        return {"k": "stored", "cid": cid, "new": new, "code": resp.get("response_code"),
                "echo": ra.get(ROSA), "stored": rec.get(ROSA), "read": read.get(ROSA), "read_error": read.get("error"),
                "secret_echo": ra.get("client_secret") == rec.get("client_secret"),
                "jar_kids": sorted(k.kid for k in kj.get("sig", issuer_id=cid) if k.kid)}

    # ---- registration histories: the id is registered again (what the library does for a registration update / a
    # re-used id: Registration.process_request(request, new_id=False) with the client_id in the request)
    def jar_entry(self, cid=DYN):
        """what the provider's key jar holds under the id, in the generator's key numbers (None: no such issuer);
        keys the generator does not know get numbers from 90"""
        for iss, ks in self.observed_config()["jar"]:
            if iss == cid:
                return [[t, n] for t, n in ks]
        return None

    def register_step(self, index, spec):
        """the index-th registration under the id client_d.  spec: {"alg": request_object_signing_alg | None,
        "keys": [(key generation, slot)], "via": "jwks" | "jwks_uri" | None (no key material in the request),
        "doc": k (by jwks_uri only: publish at the document URI of step k instead of this step's own),
        "refuse": True (a redirect URI with a fragment: the provider refuses)}.  The first one goes through
        parse_request + process_request (new id), the later ones process_request(..., new_id=False).
        Returns what register() returns plus "jar": the key jar entry of the id afterwards, "record_before/after"."""
        keys = [self.keys[gen_owner(g)][slot].serialize(private=False) for g, slot in spec.get("keys") or []]
        req = {"application_type": "web", "redirect_uris": [REDIRECT[DYN] + ("#f" if spec.get("refuse") else "")],
               "response_types": ["code"], "token_endpoint_auth_method": "client_secret_basic"}
        if spec.get("via") == "jwks":
            req["jwks"] = {"keys": keys}
        elif spec.get("via") == "jwks_uri":
            self.published[jwks_uri_of(index, spec)] = json.dumps({"keys": keys})
            req["jwks_uri"] = jwks_uri_of(index, spec)
        if spec.get("alg") is not None:
            req[ROSA] = spec["alg"]
        again = index > 0 and DYN in self.ctx.cdb
        if again:
            req["client_id"] = DYN
        kj = self.server.keyjar
        before = set(self.ctx.cdb.keys())
        rec0 = copy.deepcopy(dict(self.ctx.cdb[DYN])) if DYN in self.ctx.cdb else None
        jar0 = self.jar_entry()
        why = resp = None
        try:
            r = self.reg_ep.parse_request(json.dumps(req))
            if "error" in r:
                why = "%s: %s" % (r["error"], r.get("error_description", ""))
            else:
                resp = self.reg_ep.process_request(request=r, new_id=not again)
                if "response_args" not in resp:
                    why = "%s: %s" % (resp.get("error"), resp.get("error_description", ""))
        except Exception as e:
            why = type(e).__name__ + ": " + str(e)
        if DYN in kj:
            for kb in kj[DYN]:
                kb.httpc = self.httpc            # a jwks_uri document is fetched from the generator's table
        new = sorted(set(self.ctx.cdb.keys()) - before)
        rec = self.ctx.cdb.get(DYN)
        if why is not None:
            return {"k": "refused", "why": why[:160], "new": new, "jar": self.jar_entry(), "jar_before": jar0,
                    "record_unchanged": _sans_bookkeeping(rec) == _sans_bookkeeping(rec0)}
        ra = resp["response_args"]
        cid = ra["client_id"]
        rec = self.ctx.cdb.get(cid) or {}
        if rec.get("client_secret"):
            self.keys[gen_owner(index)]["oct"] = SYMKey(key=rec["client_secret"], use="sig")
        read = self.read_back(cid, ra.get("registration_access_token"))
        return {"k": "stored", "cid": cid, "new": new, "code": resp.get("response_code"),
                "echo": ra.get(ROSA), "stored": rec.get(ROSA), "read": read.get(ROSA), "read_error": read.get("error"),
                "secret_echo": ra.get("client_secret") == rec.get("client_secret"),
                "secret_new": rec0 is None or rec.get("client_secret") != rec0.get("client_secret"),
                "jar": self.jar_entry(cid), "jar_before": jar0}


# ---- canonical outcomes
VALUE_ERRS = [("The pushed authorization request has expired", 12), ("Got a request_uri I can not resolve", 13),
              ("A request_uri outside the registered", 14), ("Not allowed '%s' algorithm used", 15)]
ENC_SUPPORTED = ("request_object_encryption_alg_values_supported", "request_object_encryption_enc_values_supported")
EXC_TAG = {"TypeError": 19, "ClientAuthenticationError": 1, "UnknownClient": 2, "UnAuthorizedClient": 3, "MissingSigningKey": 4,
           "NoSuitableSigningKeys": 5, "BadSignature": 6, "ValueError": 7, "ServiceError": 8, "KeyError": 9,
           "BadSyntax": 10, "AttributeError": 11, "IssuerNotFound": 16, "MissingRequiredAttribute": 17, "MissingRequiredValue": 18}
DESC_TAG = [("Request object does not belong to the client", 10), ("request_uri not allowed in a pushed", 11),
            ("Request object signing algorithm not allowed", 1), ("Trying to use unregistered response_type", 2),
            ("RedirectURIError", 3), ("unknown client", 4), ("Missing required attribute", 5),
            ("openid not in scope", 6), ("ParameterError", 7), ("response_type missing", 8)]


def exc_outcome(e):
    name = type(e).__name__
    tag = EXC_TAG.get(name, 99)
    if name == "ValueError":
        for msg, t in VALUE_ERRS:
            if e.args and e.args[0] == msg:
                tag = t
    return {"k": "exc", "cls": name, "tag": tag, "msg": str(e)[:120]}


def canon_val(v):
    if v is True:
        return "True"
    if v is False:
        return "False"
    if isinstance(v, (list, tuple)):
        return [str(x) for x in v]
    return str(v)


def msg_outcome(r):
    d = {}
    for k in r.keys():
        if k.startswith("__verified"):
            continue
        d[k] = canon_val(r[k])
    if "error" in d:
        desc = d.get("error_description", "")
        tag = 9
        for pat, t in DESC_TAG:
            if pat in desc:
                tag = t
                break
        return {"k": "err", "error": d["error"], "desc": tag, "desc_text": desc[:100], "state": d.get("state")}
    vr = r.get("__verified_request")
    return {"k": "acc", "vr": vr is not None, "params": dict(sorted(d.items())),
            "vr_alg": (vr.jws_header or {}).get("alg") if vr is not None and getattr(vr, "jws_header", None) else None}
